(* Properties_C11.v — Dense matrix/vector kernels compute their definitions for all shapes.
   Only statements; every proof is `exact <lemma of Spec/>`. R is an arbitrary real closed
   field; mx_of / cv_of turn the list data of the executable model (the same definitions
   that are run on binary64 against the C library) into MathComp matrices. *)
From Coq Require Import Floats.
From mathcomp Require Import all_ssreflect all_algebra.
From LS Require Import NumOps RcfOps F64Ops Kernels KernelsSpec XSortSpec Euclid CovSpec PreprocessSpec PreprocessSpec2 Tensor TensorSpec.
Set Implicit Arguments. Unset Strict Implicit. Unset Printing Implicit Defensive.
Import Order.TTheory GRing.Theory Num.Theory.
Local Open Scope ring_scope.

Section C11.
Variable R : rcfType.
Local Existing Instance RcfOps.
Local Notation vec := (seq R).
Local Notation mat := (seq (seq R)).

(* MatrixDotProduct — whichever branch of the (int)col-3 > 0 dispatch runs — adds A*B to
   the output, for every inner dimension (every residue mod 4 of the unrolled loop) *)
Theorem C11_matmul m n p (A B C : mat) : wf m n A -> wf n p B -> wf m p C ->
  mx_of m p (matmul_into A B C) = mx_of m p C + mx_of m n A *m mx_of n p B.
Proof. exact: matmul_intoE. Qed.
Theorem C11_matmul_unrolled m n p (A B C : mat) : wf m n A -> wf n p B -> wf m p C ->
  mx_of m p (matmul_unrolled_into A B C) = mx_of m p C + mx_of m n A *m mx_of n p B.
Proof. exact: matmul_unrolled_intoE. Qed.
Theorem C11_unrolled_inner_product (u v : vec) : size u = size v ->
  dot_unrolled u v = \sum_(i < size u) u`_i * v`_i.
Proof. exact: dot_unrolledE. Qed.
Theorem C11_matvec m n (E : mat) (v p : vec) : wf m n E -> size v = n -> size p = m ->
  cleanm E -> cleanv v ->
  cv_of m (matvec_into E v p) = cv_of m p + mx_of m n E *m cv_of n v.
Proof. exact: matvec_intoE. Qed.
Theorem C11_vecmat m n (E : mat) (v p : vec) : wf m n E -> size v = m -> size p = n ->
  cleanm E -> cleanv v ->
  cv_of n (vecmat_into E v p) = cv_of n p + (mx_of m n E)^T *m cv_of m v.
Proof. exact: vecmat_intoE. Qed.
Theorem C11_outer m n (a b : vec) : size a = m -> size b = n -> cleanv a -> cleanv b ->
  mx_of m n (outer a b) = cv_of m a *m (cv_of n b)^T.
Proof. exact: outerE. Qed.
Theorem C11_transpose m n (E : mat) : wf m n E -> mx_of n m (transpose n E) = (mx_of m n E)^T.
Proof. exact: transposeE. Qed.
Theorem C11_trace n (E : mat) : wf n n E -> trace E = \tr (mx_of n n E).
Proof. exact: traceE. Qed.
Theorem C11_inner_product n (u v : vec) : cleanv u -> cleanv v -> size u = n -> size v = n ->
  vdot u v = ((cv_of n u)^T *m cv_of n v) 0 0.
Proof. exact: vdotE. Qed.

(* algebraic laws, stated on the executable kernels themselves *)
Theorem C11_transpose_product m n p (A B : mat) : wf m n A -> wf n p B ->
  mx_of p m (transpose p (matmul p A B)) = mx_of p m (matmul m (transpose p B) (transpose n A)).
Proof. exact: transpose_product. Qed.
Theorem C11_transpose_involutive m n (E : mat) : wf m n E ->
  mx_of m n (transpose m (transpose n E)) = mx_of m n E.
Proof. exact: transpose_involutive. Qed.

(* sorting by a column: a permutation of the rows, ordered by the key *)
Theorem C11_sort_perm k (m : seq (seq_eqType R)) : perm_eq (msort k m) m.
Proof. exact: msort_perm. Qed.
Theorem C11_sort_sorted k (m : seq (seq_eqType R)) :
  sorted (fun a b : seq R => nth 0 a k <= nth 0 b k) (msort k m).
Proof. exact: msort_sorted. Qed.
Theorem C11_rsort_perm k (m : seq (seq_eqType R)) : perm_eq (mrsort k m) m.
Proof. exact: mrsort_perm. Qed.

(* non-vacuity: a concrete 2x3 / 3x2 pair satisfies every hypothesis above *)
Example C11_hyps_satisfiable :
  let A : mat := [:: [:: 1; 2%:R; 0]; [:: 0; 1; 1]] in
  let B : mat := [:: [:: 1; 0]; [:: 0; 1]; [:: 1; 1]] in
  [/\ wf 2%N 3%N A, wf 3%N 2%N B, cleanm A & cleanm B].
Proof.
split=> //; rewrite /cleanm /cleanv /= ?andbT;
  by rewrite !cleanx_small // ?ler_nat // ?ler0n // ?ler01 // (ler_nat _ 1 2).
Qed.
(* column statistics and covariance of the model are the textbook statistics (complete data) *)
Theorem C11_column_variance (c : seq R) : cleanv c -> col_var c = (\sum_(x <- c) (x - col_mean c) ^+ 2) / ((size c).-1)%:R.
Proof. exact: col_var_clean. Qed.
Theorem C11_column_mean (c : seq R) : cleanv c -> col_mean c = (\sum_(x <- c) x) / (size c)%:R.
Proof. exact: col_mean_clean. Qed.
Theorem C11_column_average (c : seq R) : cleanv c -> ~~ float_eq (\sum_(x <- c) x) 0 (klit lit_1em6) ->
  col_average c = (\sum_(x <- c) x) / (size c)%:R.
Proof. exact: col_average_clean. Qed.
Theorem C11_column_rms (c : seq R) : cleanv c -> col_rms c = Num.sqrt ((\sum_(x <- c) x ^+ 2) / (size c)%:R).
Proof. exact: col_rms_clean. Qed.
Theorem C11_row_average (M : seq (seq R)) i : cleanm M -> (i < size M)%N ->
  (mat_row_average M)`_i = (\sum_(x <- nth [::] M i) x) / (size (nth [::] M i))%:R.
Proof. by move=> cM li; rewrite /mat_row_average (nth_map [::]) // col_mean_clean //; apply: (allP cM); apply: mem_nth. Qed.
Theorem C11_covariance_entry (M : seq (seq R)) i j : (i < ncols M)%N -> (j < ncols M)%N ->
  (nth [::] (covariance M) i)`_j = (\sum_(k < size M) (dev M i)`_k * (dev M j)`_k) / ((size M).-1)%:R.
Proof. exact: cov_entry. Qed.
Theorem C11_covariance_symmetric (M : seq (seq R)) i j : (i < ncols M)%N -> (j < ncols M)%N ->
  (nth [::] (covariance M) i)`_j = (nth [::] (covariance M) j)`_i.
Proof. exact: covariance_symmetric. Qed.
Theorem C11_covariance_cauchy_schwarz (M : seq (seq R)) i j : (i < ncols M)%N -> (j < ncols M)%N ->
  (nth [::] (covariance M) i)`_j ^+ 2 <= (nth [::] (covariance M) i)`_i * (nth [::] (covariance M) j)`_j.
Proof. exact: covariance_cauchy_schwarz. Qed.
(* the tensor contractions accumulate exactly the sums of their definitions, for every tensor, vector and start content *)
Theorem C11_dvector_tensor_dot (t : seq (seq (seq R))) (v : seq R) (m : seq (seq R)) j k : (j < size m)%N -> (k < size t)%N ->
  mget (dvector_tensor_dot t v m) j k = mget m j k + \sum_(i <- iota 0 (size v)) v`_i * mget (slice t k) i j.
Proof. exact: dvector_tensor_dotE. Qed.
Theorem C11_transposed_tensor_dvector (t : seq (seq (seq R))) (v : seq R) (p : seq (seq R)) k i : (k < size t)%N -> (i < size (slice t k))%N ->
  mget (transposed_tensor_dvector t v p) k i = mget p k i + \sum_(j <- iota 0 (ncols (slice t k))) mget (slice t k) i j * v`_j.
Proof. exact: transposed_tensor_dvectorE. Qed.
Theorem C11_tensor_matrix_dot (t : seq (seq (seq R))) (m : seq (seq R)) (v : seq R) i : (i < size v)%N ->
  (tensor_matrix_dot t m v)`_i = v`_i + \sum_(k <- iota 0 (size t)) \sum_(j <- iota 0 (ncols (slice t k))) mget (slice t k) i j * mget m j k.
Proof. exact: tensor_matrix_dotE. Qed.
End C11.

(* the same definitions executed on binary64 (what the correspondence check runs) *)
Example C11_f64_runs :
  matmul (ops := F64Ops) 1 [:: [:: 1; 2; 3; 4; 5]%float] [:: [:: 1]; [:: 1]; [:: 1]; [:: 1]; [:: 1]]%float
  = [:: [:: 15]%float].
Proof. by vm_compute. Qed.

Print Assumptions C11_matmul.
Print Assumptions C11_tensor_matrix_dot.
Print Assumptions C11_matmul_unrolled.
Print Assumptions C11_unrolled_inner_product.
Print Assumptions C11_matvec.
Print Assumptions C11_vecmat.
Print Assumptions C11_outer.
Print Assumptions C11_transpose.
Print Assumptions C11_trace.
Print Assumptions C11_inner_product.
Print Assumptions C11_transpose_product.
Print Assumptions C11_transpose_involutive.
Print Assumptions C11_sort_perm.
Print Assumptions C11_sort_sorted.
Print Assumptions C11_rsort_perm.
Print Assumptions C11_column_variance.
Print Assumptions C11_column_mean.
Print Assumptions C11_column_average.
Print Assumptions C11_column_rms.
Print Assumptions C11_row_average.
Print Assumptions C11_covariance_entry.
Print Assumptions C11_covariance_symmetric.
Print Assumptions C11_covariance_cauchy_schwarz.
Print Assumptions C11_f64_runs.
