(* Properties_C04.v — PLS regression is a correct least-squares family. *)
From Coq Require Import ZArith.
From mathcomp Require Import all_ssreflect all_algebra.
From LS Require Import NumOps RcfOps Kernels Pls PlsSpec.
Set Implicit Arguments. Unset Strict Implicit. Unset Printing Implicit Defensive.
Import Order.TTheory GRing.Theory Num.Theory.
Local Open Scope ring_scope.

Section C04.
Variable R : rcfType.
(* one more latent variable never increases the residual sum of squares (R2 non-decreasing):
   the Y-deflation is the orthogonal projection on t (C03) and
   |Y - proj_t Y|^2 = |Y|^2 - |t'Y|^2 / t't *)
Theorem C04_rss_after_lv n ny (Y : 'M[R]_(n,ny)) (t : 'cV[R]_n) : PlsSpec.dot t t != 0 ->
  fro2y (Y - (PlsSpec.dot t t)^-1 *: (t *m (t^T *m Y))) = fro2y Y - (PlsSpec.dot t t)^-1 * fro2y (t^T *m Y).
Proof. exact: rss_after_projection. Qed.
Theorem C04_rss_monotone n ny (Y : 'M[R]_(n,ny)) (t : 'cV[R]_n) : PlsSpec.dot t t != 0 ->
  fro2y (Y - (PlsSpec.dot t t)^-1 *: (t *m (t^T *m Y))) <= fro2y Y.
Proof. exact: rss_monotone. Qed.
(* OLS limit: with a = rank X non-zero orthogonal scores in the column space of X, a residual
   orthogonal to every score satisfies the normal equations X'(Y - Yhat) = 0 *)
Theorem C04_ols_limit n m a k (X : 'M[R]_(n,m)) (T : 'M[R]_(n,a)) (E : 'M[R]_(n,k)) :
  \rank X = a -> (T^T <= X^T)%MS -> \rank T = a -> T^T *m E = 0 -> X^T *m E = 0.
Proof. exact: ols_limit. Qed.
Theorem C04_orthogonal_scores_have_full_rank n a (T : 'M[R]_(n,a)) (d : 'rV[R]_a) :
  T^T *m T = diag_mx d -> (forall i, d 0 i != 0) -> \rank T = a.
Proof. exact: rank_orth. Qed.
(* regression-coefficient form: for EVERY row x (training or unseen) the sequential score
   predictor satisfies x W = t (P'W); P'W is upper unitriangular (C03), so t = x W (P'W)^-1 and
   x (W (P'W)^-1 b) = t b — betas predict what the scores predict *)
Theorem C04_scores_from_weights m a (w p : nat -> 'cV[R]_m)
  (pw1 : forall k, (k < a)%N -> (p k)^T *m w k = 1%:M)
  (pwu : forall j k, (j < k)%N -> (k < a)%N -> (p k)^T *m w j = 0) (x : 'rV[R]_m) j : (j < a)%N ->
  x *m w j = \sum_(k < a) trow w p x k *m ((p k)^T *m w j).
Proof. exact: (scores_from_weights pw1 pwu). Qed.
End C04.

Print Assumptions C04_rss_monotone.
Print Assumptions C04_ols_limit.
Print Assumptions C04_scores_from_weights.
