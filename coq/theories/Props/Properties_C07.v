(* Properties_C07.v — MLR is ordinary least squares with intercept. *)
From Coq Require Import Floats.
From mathcomp Require Import all_ssreflect all_algebra.
From LS Require Import NumOps RcfOps F64Ops Kernels Algebra Mlr MlrSpec GJ GjExec GjTotal OlsExec.
Set Implicit Arguments. Unset Strict Implicit. Unset Printing Implicit Defensive.
Import Order.TTheory GRing.Theory Num.Theory.
Local Open Scope ring_scope.

Section C07.
Variable R : rcfType.
Variables n p k : nat.
Variable Z : 'M[R]_(n,p).   (* design matrix [1 | X] *)
Variable N : 'M[R]_p.        (* what the inversion of Z'Z returned *)
Hypothesis NZ : N *m (Z^T *m Z) = 1%:M.
Local Notation B Y := (coef Z N Y).

Theorem C07_normal_equations (Y : 'M[R]_(n,k)) : Z^T *m (Y - Z *m B Y) = 0.
Proof. exact: (normal_equations NZ). Qed.
(* residuals are orthogonal to every column of the design matrix: they sum to zero (column of
   ones) and are orthogonal to every predictor *)
Theorem C07_residuals_orthogonal (Y : 'M[R]_(n,k)) (c : 'cV[R]_p) : (Z *m c)^T *m (Y - Z *m B Y) = 0.
Proof. exact: (residual_orthogonal_to_colspace NZ). Qed.
Theorem C07_least_squares (Y : 'M[R]_(n,k)) (B' : 'M[R]_(p,k)) :
  MlrSpec.fro2 (Y - Z *m B Y) <= MlrSpec.fro2 (Y - Z *m B').
Proof. exact: (least_squares NZ). Qed.
Theorem C07_exact_recovery (B0 : 'M[R]_(p,k)) : B (Z *m B0) = B0.
Proof. exact: (exact_recovery NZ). Qed.
(* scaling / re-mixing the responses scales the coefficients; shifting a response by a constant
   (a multiple of the intercept column, or of any column of Z) shifts the matching coefficient *)
Theorem C07_equivariance_scale (Y : 'M[R]_(n,k)) (D : 'M[R]_k) : B (Y *m D) = B Y *m D.
Proof. exact: linear_in_y. Qed.
Theorem C07_equivariance_shift (Y : 'M[R]_(n,k)) (c : 'cV[R]_p) (d : 'rV[R]_k) :
  B (Y + (Z *m c) *m d) = B Y + c *m d.
Proof. exact: (shift_equivariance NZ). Qed.
End C07.

(* the inverse used by OrdinaryLeastSquares: Gauss–Jordan elimination is sound whenever it
   completes without a vanishing pivot *)
Theorem C07_gauss_jordan_sound (F : fieldType) n (M A Bm : 'M[F]_n) :
  gj_run M (enum 'I_n) = Some (A, Bm) -> normalise A Bm *m M = 1%:M.
Proof. exact: gj_sound. Qed.
Theorem C07_r2_range (R : rcfType) (rss tss : R) : 0 <= rss -> rss <= tss -> 0 < tss -> 0 <= 1 - rss / tss <= 1.
Proof. exact: r2_range. Qed.

Local Open Scope float_scope.
Example C07_f64_runs :
  let M := mlr_fit (ops := F64Ops) [:: [:: 1]; [:: 2]; [:: 3]; [:: 4]] [:: [:: 3]; [:: 5]; [:: 7]; [:: 9]] in
  v_agree 0x1p-40 1 (head [::] (ml_B M)) [:: 1; 2] && v_agree 0x1p-40 1 (ml_r2 M) [:: 1] = true.
Proof. by vm_compute. Qed.

(* the hypothesis NZ of the section above ("what the inversion of Z'Z returned is a left inverse") is met by the
   EXECUTABLE inversion the model of OrdinaryLeastSquares calls (Algebra.gj_inverse), for every size, whenever no
   pivot vanishes *)
Theorem C07_executable_inverse_meets_NZ (R : rcfType) p (A : seq (seq R)) : RcfOps.wf p p A ->
  (forall i, (i < p)%N -> pivot_of p (state p A i) i != 0%R) ->
  (mx_of p p (gj_inverse A) *m mx_of p p A = 1%:M)%R.
Proof. exact: gj_inverse_mx. Qed.
(* ... and that hypothesis holds for every invertible Z'Z (full column rank): no pivot of the executable inversion vanishes *)
Theorem C07_executable_inverse_total (R : rcfType) p (A : seq (seq R)) : RcfOps.wf p p A -> (mx_of p p A \in unitmx)%R ->
  (mx_of p p (gj_inverse A) = invmx (mx_of p p A))%R.
Proof. exact: gj_inverse_total. Qed.
(* the whole chain for the EXECUTABLE OrdinaryLeastSquares (transpose, product kernel, pivoting inversion, two matrix-vector
   products): for every n x p design of full column rank and every response — no cell of the data or of the two intermediate
   results inside the missing-value window, which the matrix-vector kernel skips — the list program returns (Z'Z)^-1 Z'y, its
   residual is orthogonal to every column of the design (residuals sum to zero when the first column is the ones), and no other
   coefficient vector has a smaller residual sum of squares *)
Section ExecutableOls.
Variable R : rcfType.
Variables (n p : nat) (Z : seq (seq R)) (y : seq R).
Hypothesis wZ : RcfOps.wf n p Z.
Hypothesis n_pos : (0 < n)%N.
Hypothesis sy : size y = n.
Hypothesis uG : ((mx_of n p Z)^T *m mx_of n p Z \in unitmx)%R.
Hypothesis cZt : cleanm (transpose p Z).
Hypothesis cy : cleanv y.
Hypothesis cI : cleanm (gj_inverse (matmul p (transpose p Z) Z)).
Hypothesis cZy : cleanv (matvec (transpose p Z) y).
Theorem C07_executable_ols :
  (cv_of p (ols Z y) = invmx ((mx_of n p Z)^T *m mx_of n p Z) *m ((mx_of n p Z)^T *m cv_of n y))%R.
Proof. exact: ols_execE. Qed.
Theorem C07_executable_normal_equations : ((mx_of n p Z)^T *m (cv_of n y - mx_of n p Z *m cv_of p (ols Z y)) = 0)%R.
Proof. exact: ols_exec_normal_equations. Qed.
Theorem C07_executable_least_squares (b' : 'cV[R]_p) :
  (fro2 (cv_of n y - mx_of n p Z *m cv_of p (ols Z y)) <= fro2 (cv_of n y - mx_of n p Z *m b'))%R.
Proof. exact: ols_exec_least_squares. Qed.
End ExecutableOls.
Print Assumptions C07_normal_equations.
Print Assumptions C07_executable_inverse_meets_NZ.
Print Assumptions C07_executable_inverse_total.
Print Assumptions C07_executable_ols.
Print Assumptions C07_executable_normal_equations.
Print Assumptions C07_executable_least_squares.
Print Assumptions C07_least_squares.
Print Assumptions C07_exact_recovery.
Print Assumptions C07_gauss_jordan_sound.
