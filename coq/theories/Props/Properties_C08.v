(* Properties_C08.v — LDA predicts the arg-max discriminant and is invariant to affine re-coding. *)
From Coq Require Import Floats.
From mathcomp Require Import all_ssreflect all_algebra.
From LS Require Import NumOps RcfOps F64Ops Kernels Pca Lda LdaSpec LdaSpec2.
From LS Require LdaData.
Set Implicit Arguments. Unset Strict Implicit. Unset Printing Implicit Defensive.
Import Order.TTheory GRing.Theory Num.Theory.
Local Open Scope ring_scope.

Section Invariance.
Variable R : rcfType.
Variable m : nat.
(* differences of discriminant scores between classes (the prior terms cancel) are unchanged when
   class means and the object undergo x -> A x + c and the symmetric inverse covariance
   transforms contragrediently; hence predictions are unchanged *)
Theorem C08_affine_invariance (A C : 'M[R]_m) (c mk mj x : 'cV[R]_m) : A \in unitmx -> C^T = C ->
  let C' := (invmx A)^T *m C *m invmx A in
  score C' (A *m mk + c) (A *m x + c) - score C' (A *m mj + c) (A *m x + c) = score C mk x - score C mj x.
Proof. exact: affine_invariance. Qed.
End Invariance.

(* the hypothesis of the invariance theorem is what the data deliver: under x -> A x + c of every
   object the class means map the same way, the pooled within-class scatter (any class weights)
   becomes A Sw A^T and its inverse A^-T Sw^-1 A^-1; so discriminant differences computed entirely
   from the transformed data equal those computed from the original data *)
Section FromData.
Variable R : rcfType.
Variables (m : nat) (I G : finType) (cls : I -> G) (w : G -> R).
Theorem C08_scatter_equivariant (A : 'M[R]_m) (c : 'cV[R]_m) (x : I -> 'cV[R]_m) : (forall g, cnt R cls g != 0) ->
  scatter cls w (amap A c x) = A *m scatter cls w x *m A^T.
Proof. exact: scatter_affine. Qed.
Theorem C08_affine_invariance_from_data (A : 'M[R]_m) (c : 'cV[R]_m) (x : I -> 'cV[R]_m) (k j : G) (z : 'cV[R]_m) :
  (forall g, cnt R cls g != 0) -> A \in unitmx -> scatter cls w x \in unitmx ->
  let x' := amap A c x in
  score (invmx (scatter cls w x')) (cmean cls x' k) (A *m z + c) - score (invmx (scatter cls w x')) (cmean cls x' j) (A *m z + c)
  = score (invmx (scatter cls w x)) (cmean cls x k) z - score (invmx (scatter cls w x)) (cmean cls x j) z.
Proof. exact: lda_affine_invariance. Qed.
End FromData.

(* the same chain for the scatter lda.c actually forms (Exec/Lda.v: Sw = (1/n) sum_i (x_i - grand mean)(x_i - grand mean)', the
   classes enter through their means only): objects as the rows of X, classes k and j given by indicator (weight) vectors *)
Section FromDataAsCoded.
Variable R : rcfType.
Variables n m : nat.
Theorem C08_grand_mean_scatter_equivariant (A : 'M[R]_m) (c : 'cV[R]_m) (X : 'M[R]_(n, m)) : (0 < n)%N ->
  LdaData.scatter (LdaData.amap A c X) = A *m LdaData.scatter X *m A^T.
Proof. by move=> n0; apply: LdaData.scatter_amap. Qed.
Theorem C08_affine_invariance_from_data_as_coded (A : 'M[R]_m) (c : 'cV[R]_m) (X : 'M[R]_(n, m)) (wk wj : 'cV[R]_n) (x : 'cV[R]_m) :
  (0 < n)%N -> A \in unitmx -> LdaData.scatter X \in unitmx -> LdaData.wsum wk != 0 -> LdaData.wsum wj != 0 ->
  let X' := LdaData.amap A c X in let x' := A *m x + c in
  let C := invmx (LdaData.scatter X) in let C' := invmx (LdaData.scatter X') in
  score C' (LdaData.wmean wk X') x' - score C' (LdaData.wmean wj X') x' = score C (LdaData.wmean wk X) x - score C (LdaData.wmean wj X) x.
Proof. by move=> n0; apply: LdaData.lda_data_invariance. Qed.
End FromDataAsCoded.

Section Argmax.
Variable R : rcfType.
Local Existing Instance RcfOps.
(* the predicted label, minus the label offset of the training data, is the index of a class of
   the model whose stored discriminant score is maximal — for labels numbered from 0 or from 1 *)
Theorem C08_prediction_is_argmax (M : lda_model (K := R)) (logp x : seq R) :
  (0 < size (lda_scores M logp x))%N ->
  let k := (lda_predict M logp x - ld_start M)%N in
  (k < size (lda_scores M logp x))%N /\ all (fun s => s <= nth 0 (lda_scores M logp x) k) (lda_scores M logp x).
Proof. by move=> sz; rewrite /lda_predict addnK; exact: argmax_first_spec. Qed.
Theorem C08_label_offset (M : lda_model (K := R)) (logp x : seq R) :
  (ld_start M <= lda_predict M logp x)%N.
Proof. by rewrite /lda_predict leq_addl. Qed.
End Argmax.

Local Open Scope float_scope.
(* labels from 1: the predicted labels are training labels (binary64 run of the model) *)
Example C08_f64_one_based :
  let X := [:: [:: 0; 0]; [:: 0.5; 0.25]; [:: 0.25; 1]; [:: 10; 10]; [:: 10.5; 10.25]; [:: 10.25; 11]] in
  let M := lda_fit (ops := F64Ops) X [:: 1; 1; 1; 2; 2; 2]%N in
  (ld_start M == 1%N) && (ld_nclass M == 2%N) &&
  (map (lda_predict M [:: -0x1.62e42fefa39efp-1; -0x1.62e42fefa39efp-1]) X == [:: 1; 1; 1; 2; 2; 2]%N) = true.
Proof. by vm_compute. Qed.

Print Assumptions C08_affine_invariance.
Print Assumptions C08_scatter_equivariant.
Print Assumptions C08_affine_invariance_from_data.
Print Assumptions C08_grand_mean_scatter_equivariant.
Print Assumptions C08_affine_invariance_from_data_as_coded.
Print Assumptions C08_prediction_is_argmax.
